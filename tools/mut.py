#!/usr/bin/env python3
"""Mutant tooling for validating the monitors (never touches /repo).

  mut.py new <name> <relfile> <old> <new> [<relfile> <old> <new> ...]   create mutants/<name>.patch
  mut.py run <name|patchfile> <check-id>... [--tier quick]              run checks against a scratch copy with the patch
  mut.py suite <name|patchfile>                                         run the repository's own tests on the patched copy
"""
import os
import shutil
import subprocess
import sys
import tempfile

VERIF = os.path.dirname(os.path.dirname(os.path.abspath(__file__)))
REPO = "/repo"
PY = "/venv/bin/python"


def scratch_copy() -> str:
    d = tempfile.mkdtemp(prefix="mutrepo_")
    dst = os.path.join(d, "repo")
    shutil.copytree(REPO, dst, ignore=shutil.ignore_patterns(".git", "__pycache__", "*.egg-info", ".mypy_cache", ".pytest_cache"))
    return dst


def patch_path(name: str) -> str:
    if os.path.isdir(name) and os.path.exists(os.path.join(name, "patch.diff")):
        return os.path.abspath(os.path.join(name, "patch.diff"))
    if os.path.isfile(name):
        return os.path.abspath(name)
    for cand in (os.path.join(VERIF, "mutants", name + ".patch"), os.path.join(VERIF, "seeded", name, "patch.diff")):
        if os.path.exists(cand):
            return cand
    raise SystemExit("no such mutant: " + name)


def cmd_new(args):
    name = args[0]
    triples = args[1:]
    dst = scratch_copy()
    try:
        subprocess.run(["git", "init", "-q"], cwd=dst, check=True)
        subprocess.run(["git", "add", "-A"], cwd=dst, check=True)
        subprocess.run(["git", "-c", "user.email=a@b", "-c", "user.name=a", "commit", "-qm", "base"], cwd=dst, check=True)
        for i in range(0, len(triples), 3):
            rel, old, new = triples[i:i + 3]
            path = os.path.join(dst, rel)
            src = open(path).read()
            if src.count(old) < 1:
                raise SystemExit("pattern not found in {}: {!r}".format(rel, old))
            src = src.replace(old, new, 1)
            open(path, "w").write(src)
        diff = subprocess.run(["git", "diff"], cwd=dst, check=True, capture_output=True, text=True).stdout
        os.makedirs(os.path.join(VERIF, "mutants"), exist_ok=True)
        out = os.path.join(VERIF, "mutants", name + ".patch")
        open(out, "w").write(diff)
        print("wrote", out, len(diff.splitlines()), "lines")
    finally:
        shutil.rmtree(os.path.dirname(dst), ignore_errors=True)


def patched_copy(name: str) -> str:
    dst = scratch_copy()
    res = subprocess.run(["patch", "-p1", "-s", "-i", patch_path(name)], cwd=dst, capture_output=True, text=True)
    if res.returncode != 0:
        shutil.rmtree(os.path.dirname(dst), ignore_errors=True)
        raise SystemExit("patch failed: " + res.stdout + res.stderr)
    return dst


def cmd_run(args):
    tier = "quick"
    if "--tier" in args:
        i = args.index("--tier")
        tier = args[i + 1]
        args = args[:i] + args[i + 2:]
    name, checks = args[0], args[1:]
    dst = patched_copy(name)
    rc_all = {}
    try:
        env = dict(os.environ, VERIF_REPO=dst, VERIF_NO_EVIDENCE="1")
        for chk in checks:
            res = subprocess.run([PY, "-m", "vkit", "check", chk, "--tier", tier], cwd=VERIF, env=env, capture_output=True, text=True)
            lines = [ln for ln in res.stdout.splitlines() if ln.startswith(("VIOLATION", "  key=", "INCONCLUSIVE", "KNOWN"))]
            print("== {} on {}: exit {}".format(chk, os.path.basename(name), res.returncode))
            for ln in lines[:6]:
                print("   " + ln[:300])
            if res.returncode not in (0, 1):
                print(res.stdout[-800:], res.stderr[-800:])
            rc_all[chk] = res.returncode
    finally:
        shutil.rmtree(os.path.dirname(dst), ignore_errors=True)
    return rc_all


def cmd_suite(args):
    dst = patched_copy(args[0])
    try:
        res = subprocess.run([PY, "-m", "pytest", "-q", "-x", "-p", "no:cacheprovider", "--timeout=900",
                              "--deselect", "tests/test_globals.py::TestSlow::test_slow_set",
                              "--deselect", "tests/test_inheritance_postcondition.py::TestInvalid::test_abstract_method_not_implemented",
                              "--deselect", "tests/test_inheritance_precondition.py::TestInvalid::test_abstract_method_not_implemented",
                              "--ignore", "tests/test_mypy_decorators.py"],
                             cwd=dst, capture_output=True, text=True, env=dict(os.environ, PYTHONPATH=dst))
        print(res.stdout[-600:])
        print("suite exit", res.returncode)
    finally:
        shutil.rmtree(os.path.dirname(dst), ignore_errors=True)


if __name__ == "__main__":
    cmd = sys.argv[1]
    {"new": cmd_new, "run": cmd_run, "suite": cmd_suite}[cmd](sys.argv[2:])
