#!/bin/bash
# Seed sweep of every check on both tiers against /repo; prints one line per run (evidence files are not rewritten).
# usage: tools/sweep.sh "<seeds>" "<tiers>" [checks...]
cd "$(dirname "$0")/.."
SEEDS=${1:-"0 1 2 3 7 42"}
TIERS=${2:-"quick thorough"}
shift 2
CHECKS=${@:-$(seq -f "C%02g" 1 20)}
for tier in $TIERS; do
  for seed in $SEEDS; do
    for c in $CHECKS; do
      out=$(PYTHONHASHSEED=0 VERIF_NO_EVIDENCE=1 VERIF_SEED=$seed /venv/bin/python -m vkit check $c --tier $tier 2>&1)
      rc=$?
      echo "tier=$tier seed=$seed rc=$rc $(echo "$out" | grep -E "^C[0-9]+ " | cut -c1-150)"
      if [ $rc -ne 0 ]; then echo "$out" | grep -E "key=|INCONC|VIOLATION" | cut -c1-400 | sort | uniq -c | head -12; fi
    done
  done
done
echo SWEEP-DONE
