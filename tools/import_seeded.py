#!/usr/bin/env python3
"""Validate a change produced by a sub-agent in its scratch worktree and import it as /verif/seeded/<name>/.

usage: import_seeded.py <property-id> <worktree> <name> "<what it needs to manifest>"

Validation (all in scratch copies of /repo's HEAD, removed afterwards):
  1. patch.diff applies to the current /repo HEAD;
  2. the repository's own suite still has the baseline result with the change (358 passed);
  3. demo.py exits 0 without the change and non-zero with it.
"""
import json
import os
import shutil
import subprocess
import sys

VERIF = os.path.dirname(os.path.dirname(os.path.abspath(__file__)))
sys.path.insert(0, os.path.join(VERIF, "tools"))
import mut  # noqa: E402  pylint: disable=wrong-import-position


def main() -> int:
    pid, wt, name, needs = sys.argv[1:5]
    src = os.path.join(wt, "seeded_out")
    patch = os.path.join(src, "patch.diff")
    demo = os.path.join(src, "demo.py")
    ran = []
    clean = mut.scratch_copy()
    changed = mut.scratch_copy()
    try:
        res = subprocess.run(["patch", "-p1", "-s", "-i", patch], cwd=changed, capture_output=True, text=True)
        ran.append("patch -p1 < patch.diff on a copy of /repo HEAD: exit {}".format(res.returncode))
        if res.returncode != 0:
            print("PATCH DOES NOT APPLY", res.stdout, res.stderr)
            return 1
        os.makedirs(os.path.join(clean, "seeded_out"))
        os.makedirs(os.path.join(changed, "seeded_out"))
        shutil.copy(demo, os.path.join(clean, "seeded_out", "demo.py"))
        shutil.copy(demo, os.path.join(changed, "seeded_out", "demo.py"))
        r0 = subprocess.run([mut.PY, "seeded_out/demo.py"], cwd=clean, env=dict(os.environ, PYTHONPATH=clean), capture_output=True, text=True, timeout=300)
        r1 = subprocess.run([mut.PY, "seeded_out/demo.py"], cwd=changed, env=dict(os.environ, PYTHONPATH=changed), capture_output=True, text=True, timeout=300)
        ran.append("demo.py without the change: exit {}".format(r0.returncode))
        ran.append("demo.py with the change: exit {} ({})".format(r1.returncode, (r1.stderr.strip().splitlines() or r1.stdout.strip().splitlines() or [""])[-1][:200]))
        print("\n".join(ran))
        if r0.returncode != 0 or r1.returncode == 0:
            print("DEMO DOES NOT DISCRIMINATE", r0.stdout[-500:], r0.stderr[-500:])
            return 1
        suite = subprocess.run([mut.PY, "-m", "pytest", "-q", "-p", "no:cacheprovider", "--timeout=900"], cwd=changed,
                               env=dict(os.environ, PYTHONPATH=changed), capture_output=True, text=True)
        summary = suite.stdout.strip().splitlines()[-1]
        failed = sorted(ln.split()[1] for ln in suite.stdout.splitlines() if ln.startswith("FAILED"))
        ran.append("repository suite with the change: {}".format(summary))
        print(summary)
        baseline_fail = {"tests/test_globals.py::TestSlow::test_slow_set",
                         "tests/test_inheritance_postcondition.py::TestInvalid::test_abstract_method_not_implemented",
                         "tests/test_inheritance_precondition.py::TestInvalid::test_abstract_method_not_implemented",
                         "tests/test_mypy_decorators.py::TestMypyDecorators::test_class_type_when_decorated_with_invariant",
                         "tests/test_mypy_decorators.py::TestMypyDecorators::test_functions",
                         "tests/test_mypy_decorators.py::TestMypyDecorators::test_that_mypy_complains_when_decorating_non_type_with_invariant"}
        if "358 passed" not in summary or set(failed) - baseline_fail:
            print("SUITE RESULT CHANGED", failed)
            return 1
    finally:
        shutil.rmtree(os.path.dirname(clean), ignore_errors=True)
        shutil.rmtree(os.path.dirname(changed), ignore_errors=True)
    dst = os.path.join(VERIF, "seeded", name)
    os.makedirs(dst, exist_ok=True)
    shutil.copy(patch, os.path.join(dst, "patch.diff"))
    shutil.copy(demo, os.path.join(dst, "demo.py"))
    notes = os.path.join(src, "notes.md")
    if os.path.exists(notes):
        shutil.copy(notes, os.path.join(dst, "notes.md"))
    head = subprocess.run(["git", "-C", "/repo", "log", "--format=%h", "-1"], capture_output=True, text=True).stdout.strip()
    meta = {"property": pid, "origin": "independent sub-agent given only the property text and a scratch worktree", "repo_head": head,
            "needs_to_manifest": needs, "validated_by": ran, "detected_by": {}}
    json.dump(meta, open(os.path.join(dst, "meta.json"), "w"), indent=1)
    print("imported", dst)
    return 0


if __name__ == "__main__":
    sys.exit(main())
