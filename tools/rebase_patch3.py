#!/usr/bin/env python3
"""Rebase stale patches on /repo HEAD with a 3-way merge: find the newest /repo commit on which the patch applies cleanly, commit it
there in a scratch clone and cherry-pick it onto HEAD. Conflicts are reported (the clone is kept for manual resolution).

usage: rebase_patch3.py <patchfile>...
"""
import os
import shutil
import subprocess
import sys
import tempfile


def git(cwd, *args, check=True):
    return subprocess.run(["git", "-c", "user.email=a@b", "-c", "user.name=a"] + list(args), cwd=cwd, capture_output=True, text=True, check=check)


def main() -> int:
    rc = 0
    for path in sys.argv[1:]:
        path = os.path.abspath(path)
        tmp = tempfile.mkdtemp(prefix="rebase3_")
        clone = os.path.join(tmp, "repo")
        subprocess.run(["git", "clone", "-q", "/repo", clone], check=True)
        head = git(clone, "rev-parse", "HEAD").stdout.strip()
        revs = git(clone, "rev-list", "HEAD").stdout.split()
        base = None
        for rev in revs:
            git(clone, "checkout", "-q", rev)
            if git(clone, "apply", "--check", path, check=False).returncode == 0:
                base = rev
                break
        if base is None:
            print("NO BASE", path)
            rc = 1
            shutil.rmtree(tmp, ignore_errors=True)
            continue
        git(clone, "apply", path)
        git(clone, "commit", "-qam", "mutant")
        mut = git(clone, "rev-parse", "HEAD").stdout.strip()
        git(clone, "checkout", "-q", head)
        res = git(clone, "cherry-pick", "--no-commit", mut, check=False)
        if res.returncode != 0:
            print("CONFLICT", path, "base", base[:7], "clone kept at", clone)
            print(git(clone, "diff", "--name-only", "--diff-filter=U", check=False).stdout)
            rc = 1
            continue
        diff = git(clone, "diff", "HEAD").stdout
        if os.path.basename(path) == "patch.diff":
            orig = os.path.join(os.path.dirname(path), "patch.original.diff")
            if not os.path.exists(orig):
                shutil.copy(path, orig)
        open(path, "w").write(diff)
        print("rebased", path, "from", base[:7])
        shutil.rmtree(tmp, ignore_errors=True)
    return rc


if __name__ == "__main__":
    sys.exit(main())
